"""C04 — codewords equal their published definitions: D1 table codewords vs the reference definitions (exhaustive) and the
documented examples; D2 field skeleton of every non-table writer vs the documented structure of its code."""
import mir
import rules_tables as rt
import rules_num as rn
from rules_c06 import norm, lin

ILOG = "core::num::<impl u64>::ilog2"


def A(i):
    return ("A", i)


def c(v):
    return ("const", v)


def add(a, b):
    return ("binop", "Add", a, b)


def ilog2(x):
    return ("app", ILOG, (x,))


N1 = add(A(0), c(1))            # n + 1
LAM = ilog2(N1)                 # floor(log2(n+1))

# documented structure (src/codes/*.rs module docs): sequence of fields per writer path
#   ("U", v)            unary code of v
#   ("B", w)            w-bit field (value operand not compared: congruence mod 2^w is C01/C19's domain)
#   ("Bx", v, w)        w-bit field with the stated value
#   ("G", v)            gamma code of v           ("R", v, k)  Rice_k code of v
#   ("MB", x, u)        minimal binary code of x with upper bound u
def spec_for(code):
    k = A(1)
    if code == "gamma":
        return [[("U", LAM), ("B", LAM)]]
    if code == "delta":
        return [[("G", LAM), ("B", LAM)]]
    if code == "pi":
        return [[("R", LAM, k), ("B", LAM)]]
    if code == "rice":
        return [[("U", ("binop", "Shr", A(0), k)), ("B", k)]]
    if code == "exp_golomb":
        return [[("G", ("binop", "Shr", A(0), k)), ("B", k)]]
    if code == "golomb":
        return [[("U", ("binop", "Div", A(0), k)), ("MB", ("binop", "Rem", A(0), k), k)]]
    if code == "zeta":
        h = ("binop", "Div", LAM, k)
        l = ("binop", "Shl", c(1), ("binop", "Mul", h, k))
        ub = ("app", "core::num::<impl u64>::wrapping_sub", (("binop", "Shl", l, k), l))
        return [[("U", h), ("MB", ("binop", "Sub", N1, l), ub)]]
    if code == "minimal_binary":
        l = ilog2(A(1))
        limit = ("app", "core::num::<impl u64>::wrapping_sub", (("binop", "Shl", ("binop", "Shl", c(1), l), c(1)), A(1)))
        tw = add(A(0), limit)
        return [[("Bx", A(0), l)],
                [("Bx", ("binop", "Shr", tw, c(1)), l), ("Bx", ("binop", "BitAnd", tw, c(1)), c(1))]]
    return None


WRITERS = [
    ("gamma", rn.NONTABLE["gamma.write"], (2,)),
    ("delta", rn.NONTABLE["delta.write"], (2,)),
    ("zeta", rn.NONTABLE["zeta.write"], (2, 3)),
    ("minimal_binary", "codes::minimal_binary::MinimalBinaryWrite::write_minimal_binary", (2, 3)),
    ("pi", "codes::pi::PiWrite::write_pi", (2, 3)),
    ("rice", "codes::rice::RiceWrite::write_rice", (2, 3)),
    ("golomb", "codes::golomb::GolombWrite::write_golomb", (2, 3)),
    ("exp_golomb", "codes::exp_golomb::ExpGolombWrite::write_exp_golomb", (2, 3)),
]

KIND = {
    "traits::bits::BitWrite::write_unary": "U", "traits::bits::BitWrite::write_bits": "B",
    "codes::gamma::GammaWrite::write_gamma": "G", "codes::gamma::GammaWriteParam::write_gamma_param": "G",
    "codes::rice::RiceWrite::write_rice": "R", "codes::minimal_binary::MinimalBinaryWrite::write_minimal_binary": "MB",
}


def same(a, b):
    """equal as linear forms over the same atoms"""
    return lin(a) == lin(b)


def emitted(p, argmap):
    seq = []
    for e in p.calls():
        kd = KIND.get(e[1])
        if kd is None:
            continue
        args = [norm(a, p, argmap) for a in e[8][1:]]
        seq.append((kd, args))
    return seq


def match(seq, spec):
    if len(seq) != len(spec):
        return False
    for (kd, args), s in zip(seq, spec):
        want = s[0]
        if want in ("B", "Bx"):
            if kd != "B":
                return False
            width = args[1]
            if not same(width, s[-1]):
                return False
            if want == "Bx" and not same(args[0], s[1]):
                return False
        else:
            if kd != want or len(args) != len(s) - 1:
                return False
            if not all(same(a, b) for a, b in zip(args, s[1:])):
                return False
    return True


def run_skeletons(chk, F, rule="D2.skeleton"):
    chk.rule(rule, floor=8, doc="each non-table writer emits, on every path, the documented sequence of fields (unary / fixed-width / nested code / minimal binary) with the documented lengths and nested arguments; the extra bit of minimal binary comes last")
    for code, path, wargs in WRITERS:
        if isinstance(path, tuple):
            b, gen = rn.find_body(F, path[0]), path[1]
            path = b["path"]
        else:
            b, gen = F.body(path), {}
        argmap = {a: i for i, a in enumerate(wargs)}
        spec = spec_for(code)
        seqs = []
        for p in mir.walk_inline(b, F, gen_map=gen):
            r = p.ret
            if p.end[0] == "return" and isinstance(r, tuple) and r[0] == "agg" and r[3] == "Ok":
                seqs.append(emitted(p, argmap))
        bad = [s for s in seqs if not any(match(s, sp) for sp in spec)]
        covered = all(any(match(s, sp) for s in seqs) for sp in spec)
        if not (seqs and not bad and covered):
            # the writer is not written in the documented shape: that is only a violation if what it emits differs.  Decide by
            # the exact-field comparison (D3's method) over the whole parameter range instead of the enumerated sample.
            import rules_ivl
            okv, text = rules_ivl.fields_all_params(F, "default", code)
            if okv:
                chk.ok(rule, code, sample={"code": code, "shape": "differs from the documented skeleton", "decided_by": text})
                continue
        chk.expect(rule, code, seqs and not bad and covered,
                   "writer of %s (%s) does not emit the documented field sequence: %s" % (code, path, [[(k, [str(a)[:50] for a in args]) for k, args in s] for s in bad][:2] or "a documented case is never produced"),
                   detail={"code": code, "emitted": [[(k, [str(a)[:80] for a in args]) for k, args in s] for s in seqs][:3]},
                   sample={"code": code, "paths": len(seqs), "fields": [[k for k, _ in s] for s in seqs][:2]})


def check_omega_doc(chk):
    """omega.rs header: the example string must be the concatenation of the blocks it lists (and of the definition)"""
    import os, re
    import facts
    import refspec
    chk.rule("D1.doc.omega", floor=0, doc="documented example of omega.rs: the printed codeword is the concatenation of the blocks listed next to it and equals the block definition")
    try:
        text = open(os.path.join(facts.REPO, "src", "codes", "omega.rs")).read()
    except OSError:
        return
    text = re.sub(r"\n//!\s*", " ", text)
    found = []
    for m in re.finditer(r"`([01]+)`, which is formed by the blocks ((?:`[01]+`(?:, and |, | and )?)+)\s*represents (\d+)", text):
        found.append((m.group(1), re.findall(r"`([01]+)`", m.group(2)), int(m.group(3)), False))
    for m in re.finditer(r"little-endian case, the code for (\d+) is `([01]+)`, which is formed by the blocks ((?:`[01]+`(?:, and |, | and )?)+)", text):
        found.append((m.group(2), re.findall(r"`([01]+)`", m.group(3)), int(m.group(1)), True))
    for word, blocks, val, le in found:
        fl = refspec.fields("omega", "le" if le else "be", (), val, val)
        want = ["{:0{w}b}".format(refspec.value_at(f[1], val) & ((1 << f[2]) - 1), w=f[2]) for f in fl]
        # the little-endian example is printed right to left (last bit of the stream first)
        shown = word if not le else word[::-1]
        cat = "".join(blocks) if not le else "".join(b[::-1] for b in blocks)
        ok = blocks == want and shown == cat
        chk.expect("D1.doc.omega", "%s(%d)" % ("le" if le else "be", val), ok,
                   "src/codes/omega.rs documents the %s code of %d as `%s` formed by blocks %s: the blocks give %s, the definition gives blocks %s" % ("little-endian" if le else "big-endian", val, word, blocks, cat if not le else cat[::-1], want),
                   sample={"word": word, "blocks": blocks})


def run_all(chk, fsets, tier):
    import facts
    F = facts.load(fsets[0])
    chk.extra["programs"] = 6 + 8
    rt.check_encode_tables(chk, F, rule="D1.encode", len_rule="D1.len")
    rt.check_doc_table(chk, F, "D1.doc")
    run_skeletons(chk, F)
    check_omega_doc(chk)
    import rules_ivl
    for fs in fsets:
        rules_ivl.run_c04_fields(chk, facts.load(fs), fs, tier)
    rules_ivl.run_golomb(chk, F, fsets[0], tier, "C04")
    # VByte (the complete 7-bit-group code): counts, step points and continuation bits on every value (rules shared with C18)
    rules_ivl.run_c18(chk, F, fsets[0], tier, prefix="D4.vbyte.")
    chk.trust("sa/refspec.py (field-level definitions written from the module docs, cross-checked against refcodes.py), transfer functions of sa/ivl.py")
    chk.trust("rustc const evaluation and MIR, exporter, refcodes.py (definitions written from the module docs), the field-skeleton table in sa/rules_c04.py (written from the module docs)")

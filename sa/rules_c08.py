"""C08 — bulk copy: P1 numeric obligations of the six copy bodies (E3), P3 accounting (E4), P4 feature gate."""
import mir
import rules_num as rn
import rules_effects as re_
from numabs import le, const


def generic_copy_specs():
    """the chunked default implementations in src/traits/bits.rs (generic over the stream: one configuration)"""
    out = []
    out.append(rn.Spec("default.copy_to", dict(path="traits::bits::BitRead::copy_to"), [64], rn.no_inv, group="copy"))
    out.append(rn.Spec("default.copy_from", dict(path="traits::bits::BitWrite::copy_from"), [64], rn.no_inv, group="copy"))
    return out


def generic_effects():
    E = {}
    adv = re_.g_adv
    E["default.copy_to"] = re_.Effect(None, lambda num, p, w: [
        ("destination receives exactly n bits", re_.eq(re_.mem_aff(num, p, adv(("arg", 2, "arg2"))), num.aff(adv(("arg", 2, "arg2"))) + num.aff(("arg", 3, "arg3")))),
        ("source advances by exactly n (through its own read_bits)", re_.eq(re_.mem_aff(num, p, ("ghost", "selfadv")), num.aff(("ghost", "selfadv")) + num.aff(("arg", 3, "arg3"))))],
        "default copy_to(w, n): n bits read from self, n bits written to w")
    E["default.copy_from"] = re_.Effect(None, lambda num, p, w: [
        ("source advances by exactly n", re_.eq(re_.mem_aff(num, p, adv(("arg", 2, "arg2"))), num.aff(adv(("arg", 2, "arg2"))) + num.aff(("arg", 3, "arg3")))),
        ("destination grows by exactly n (through its own write_bits)", re_.eq(re_.mem_aff(num, p, ("ghost", "selfadv")), num.aff(("ghost", "selfadv")) + num.aff(("arg", 3, "arg3"))))],
        "default copy_from(r, n): n bits read from r, n bits written to self")
    return E


def run_all(chk, fsets, tier):
    import facts
    overrides = {}
    for i, fs in enumerate(fsets):
        F = facts.load(fs)
        has_impls = "no_copy_impls" not in facts.FEATURE_SETS[fs]
        specs = [s for s in rn.writer_specs() + rn.reader_specs() if s.group == "copy"] if has_impls else []
        chk.rule("P1.numeric", floor=150 if i == 0 else 0,
                 doc="E3 obligations of BufBitReader::copy_to (4 words), BufBitWriter::copy_from (5 words) and the two chunked defaults: call preconditions (<= 64 bits per transfer), asserts, panics, invariants")
        rn.run_specs(chk, F, specs + generic_copy_specs(), "P1.numeric", fs)
        chk.rule("P3.accounting", floor=30 if i == 0 else 0,
                 doc="E4: source advances by exactly n and destination receives exactly n bits on every successful path of all six copy implementations")
        if has_impls:
            re_.check_effects(chk, F, [s for s in rn.writer_specs() if s.group == "copy"], re_.writer_effects(), "P3.accounting", fs)
            re_.check_effects(chk, F, [s for s in rn.reader_specs() if s.group == "copy"], re_.reader_effects(), "P3.accounting", fs)
        re_.check_effects(chk, F, generic_copy_specs(), generic_effects(), "P3.accounting", fs)
        if has_impls:
            import rules_bits
            chk.rule("P2.clean", floor=8 if i == 0 else 0, doc="bit-range domain: the reader's buffer is clean after copy_to (bits outside the valid window are zero, because a later refill ORs new words in)")
            rules_bits.run_reader_cleanliness(chk, F, fs, "P2.clean", groups=("copy",))
            chk.rule("P2.layout", floor=10 if i == 0 else 0, doc="bit-range domain: every OR that builds the writer's buffer or a delivered word in copy_from combines disjoint ranges (the undefined part of the buffer is shifted out, never rotated in)")
            rules_bits.run_writer_layout(chk, F, fs, "P2.layout", names=("copy_from",), groups=("copy",))
            import rules_seq
            chk.rule("P5.content", floor=18 if i == 0 else 0,
                     doc="bit-sequence domain: copy_to hands the destination exactly the next bits of the source (buffered bits first, then every fetched word whole in the iteration that fetched it, then the head of the last word) and keeps exactly the rest of the last word; copy_from delivers P ++ r_1 as first word, every further word is exactly the W bits read in the same iteration, and keeps exactly the last value read; no fetched word / value read is dropped or used twice")
            rules_seq.run_parallel(chk, F, fs, [("copy_to", "P5.content", "copy_to"), ("copy_from", "P5.content", "copy_from")])
        # P4: which impls override the provided methods under this feature set
        ov = set()
        for b in F.bodies:
            if b["kind"] == "AssocFn" and b["path"].split("::")[-1] in ("copy_to", "copy_from") and b.get("impl_trait_def") in ("traits::bits::BitRead", "traits::bits::BitWrite"):
                ov.add("%s|%s" % ((b.get("impl_self") or "").split("<")[0], b["impl_trait"]))
        overrides[fs] = ov
    chk.rule("P4.gate", floor=1, doc="feature no_copy_impls removes exactly the four specialised copy methods (the impls then fall back to the chunked defaults)")
    for fs, ov in sorted(overrides.items()):
        want = 4 if "no_copy_impls" not in facts.FEATURE_SETS[fs] else 0
        chk.expect("P4.gate", fs, len(ov) == want, "feature set %s: %d specialised copy methods compiled in (expected %d): %s" % (fs, len(ov), want, sorted(ov)),
                   sample={"features": fs, "overrides": sorted(ov)})
    chk.trust("rustc MIR construction and the mirx exporter")
    chk.trust("contract table; ghost model: BitRead::read_bits(n)/BitWrite::write_bits(v,n) on another stream advance it by n")
    chk.trust("exact rational simplex sa/lp.py")

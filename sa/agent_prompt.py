#!/usr/bin/env python3
"""Print the prompt for a mutation sub-agent: property text + worktree path only (nothing from /verif's machinery)."""
import json, sys
pid, wt, out = sys.argv[1], sys.argv[2], sys.argv[3]
p = [json.loads(l) for l in open('/verif/properties.jsonl') if json.loads(l)['id'] == pid][0]
print(f"""You are helping to test a verification effort for the Rust library vigna/dsi-bitstream-rs (buffered bit-stream readers/writers and instantaneous codes). You have your own scratch git worktree of the library at {wt} (a normal cargo project; build and test there only, always with --offline: there is no network). Do not read or touch /repo or /verif.

Here is a semantic property the library is supposed to satisfy:

ID: {p['id']} — {p['title']}
STATEMENT: {p['statement']}
QUANTIFIER: {p['quantifier']['text']}
WHY THE EXISTING TESTS CANNOT SETTLE IT: {p['why_tests_cant']}
CODE ANCHORS: {json.dumps(p['anchors'], indent=1)}

Your task: produce TWO independent, realistic changes (mutants A and B) to the library source under {wt}/src that each BREAK this property while (1) the crate still compiles, and (2) the existing test suite still passes unchanged (`cd {wt} && cargo test --workspace --no-fail-fast --offline`; 33 tests pass on the unmodified tree; do not edit, add or remove any existing test). Prefer changes that look like plausible maintenance edits or subtle slips (an off-by-one, a swapped branch, a dropped conversion, a wrong constant in one arm, an optimisation that is wrong in a corner), and that need something SPECIFIC to manifest: a particular word size or feature flag, an unusual input or parameter, a particular buffer state or sequence of operations, a fault at a particular point, or two cooperating sites that each look fine alone. Do NOT produce changes that ordinary use would expose at once, and do not just delete functionality. The two mutants should touch different mechanisms (different functions or different aspects of the property). Each mutant is a separate patch against the unmodified worktree.

For each mutant also write a demonstration: a new integration test file (e.g. tests/seed_demo_a.rs) that FAILS with the mutant applied and PASSES on the unmodified tree. The demonstration is not part of the mutant patch.

Work procedure: make mutant A in the worktree; run the full existing suite (must pass); write and run the demo (must fail); save `git diff -- src Cargo.toml` as the patch; `git checkout -- src Cargo.toml`; confirm the demo passes on the clean tree; repeat for B.

Deliver, in the directory {out}/ (create it): a_patch.diff, a_demo.rs, b_patch.diff, b_demo.rs, and meta.json of the form
{{"property": "{p['id']}", "mutants": [{{"name": "a", "summary": "...what was changed and where...", "needs": "...what is needed for it to manifest...", "demo_cmd": "cargo test --offline --test seed_demo_a", "suite_passes": true, "demo_fails_with_patch": true, "demo_passes_without": true}}, {{"name": "b", ...}}]}}.
Leave the worktree clean of your source edits at the end (demo test files may stay). When finished, remove the worktree's build output (`rm -rf {wt}/target`) to save disk. In your final answer, summarise the two mutants in a few lines each. If you cannot find a second mutant that satisfies all constraints, deliver one and say so.""")

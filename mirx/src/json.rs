// Minimal JSON value and serializer (no dependencies).
pub enum J {
    Null,
    Bool(bool),
    Num(String),
    Str(String),
    Arr(Vec<J>),
    Obj(Vec<(&'static str, J)>),
}

impl J {
    pub fn s(x: &str) -> J {
        J::Str(x.to_string())
    }
    pub fn write(&self, out: &mut String) {
        match self {
            J::Null => out.push_str("null"),
            J::Bool(b) => out.push_str(if *b { "true" } else { "false" }),
            J::Num(n) => out.push_str(n),
            J::Str(s) => esc(s, out),
            J::Arr(v) => {
                out.push('[');
                for (i, x) in v.iter().enumerate() {
                    if i > 0 {
                        out.push(',');
                    }
                    x.write(out);
                }
                out.push(']');
            }
            J::Obj(v) => {
                out.push('{');
                for (i, (k, x)) in v.iter().enumerate() {
                    if i > 0 {
                        out.push(',');
                    }
                    esc(k, out);
                    out.push(':');
                    x.write(out);
                }
                out.push('}');
            }
        }
    }
}

fn esc(s: &str, out: &mut String) {
    out.push('"');
    for c in s.chars() {
        match c {
            '"' => out.push_str("\\\""),
            '\\' => out.push_str("\\\\"),
            '\n' => out.push_str("\\n"),
            '\r' => out.push_str("\\r"),
            '\t' => out.push_str("\\t"),
            c if (c as u32) < 0x20 => out.push_str(&format!("\\u{:04x}", c as u32)),
            c => out.push(c),
        }
    }
    out.push('"');
}

// mirx: MIR fact exporter (rustc_private driver) for the static checks in /verif/sa.
//
// Used as RUSTC_WORKSPACE_WRAPPER under `cargo +nightly check`: argv[1] is the
// real rustc path and is dropped.  For the crate named by MIRX_CRATE (default
// `dsi_bitstream`) one JSON file is written to MIRX_OUT in `after_analysis`.
// Nothing of the analysed crate is ever executed.
#![feature(rustc_private)]
#![allow(clippy::all)]

extern crate rustc_abi;
extern crate rustc_ast;
extern crate rustc_driver;
extern crate rustc_hir;
extern crate rustc_interface;
extern crate rustc_middle;
extern crate rustc_session;
extern crate rustc_span;

mod json;
use json::J;

use rustc_driver::Compilation;
use rustc_hir::def::DefKind;
use rustc_hir::def_id::{DefId, LocalDefId};
use rustc_middle::mir::{
    self, AggregateKind, AssertKind, BinOp, Body, CastKind, Const, ConstValue, Operand, Place,
    ProjectionElem, Rvalue, StatementKind, TerminatorKind,
};
use rustc_middle::ty::print::PrintTraitRefExt;
use rustc_middle::ty::{self, Instance, Ty, TyCtxt, TypingEnv};
use rustc_span::Span;

struct Cb;

impl rustc_driver::Callbacks for Cb {
    fn after_analysis<'tcx>(
        &mut self,
        _c: &rustc_interface::interface::Compiler,
        tcx: TyCtxt<'tcx>,
    ) -> Compilation {
        let want = std::env::var("MIRX_CRATE").unwrap_or_else(|_| "dsi_bitstream".to_string());
        let name = tcx.crate_name(rustc_hir::def_id::LOCAL_CRATE).to_string();
        if name != want {
            return Compilation::Continue;
        }
        let out = match std::env::var("MIRX_OUT") {
            Ok(o) => o,
            Err(_) => return Compilation::Continue,
        };
        let j = export(tcx);
        let mut s = String::with_capacity(1 << 24);
        j.write(&mut s);
        std::fs::write(&out, s).expect("mirx: cannot write MIRX_OUT");
        Compilation::Continue
    }
}

fn main() {
    let mut args: Vec<String> = std::env::args().collect();
    // wrapper mode: argv[1] is the path of the real rustc
    if args.len() > 1 && (args[1].ends_with("rustc") || args[1].contains("/rustc")) {
        args.remove(1);
    }
    rustc_driver::run_compiler(&args, &mut Cb);
}

// ---------------------------------------------------------------------------

fn span_str(tcx: TyCtxt<'_>, sp: Span) -> String {
    let sm = tcx.sess.source_map();
    let sp = sp.source_callsite();
    let lo = sm.lookup_char_pos(sp.lo());
    let hi = sm.lookup_char_pos(sp.hi());
    let f = match &lo.file.name {
        rustc_span::FileName::Real(r) => match r.local_path() {
            Some(p) => p.display().to_string(),
            None => format!("{:?}", r),
        },
        o => format!("{:?}", o),
    };
    format!("{}:{}:{}-{}:{}", f, lo.line, lo.col.0 + 1, hi.line, hi.col.0 + 1)
}

fn macro_name(sp: Span) -> Option<String> {
    if !sp.from_expansion() {
        return None;
    }
    // outermost macro
    let mut sp = sp;
    let mut name = None;
    while sp.from_expansion() {
        let d = sp.ctxt().outer_expn_data();
        name = Some(format!("{:?}:{}", d.kind, d.kind.descr()));
        sp = d.call_site;
    }
    name
}

fn ty_str<'tcx>(t: Ty<'tcx>) -> String {
    format!("{}", t)
}

struct Ex<'tcx> {
    tcx: TyCtxt<'tcx>,
}

impl<'tcx> Ex<'tcx> {
    fn path(&self, d: DefId) -> String {
        self.tcx.def_path_str(d)
    }

    fn scalar_int_to_j(&self, si: ty::ScalarInt, ty: Ty<'tcx>) -> J {
        let size = si.size();
        let bits = si.to_bits(size);
        match ty.kind() {
            ty::Int(_) => {
                let sh = 128 - size.bits();
                let v = ((bits as i128) << sh) >> sh;
                J::Num(v.to_string())
            }
            ty::Bool => J::Bool(bits != 0),
            _ => J::Num(bits.to_string()),
        }
    }

    fn const_j(&self, c: &Const<'tcx>, env: TypingEnv<'tcx>) -> J {
        let tcx = self.tcx;
        let ty = c.ty();
        let mut o: Vec<(&'static str, J)> = vec![("k", J::s("const")), ("ty", J::Str(ty_str(ty)))];
        // function items
        if let ty::FnDef(did, args) = ty.kind() {
            o.push(("fn", J::Str(self.path(*did))));
            o.push(("fn_args", J::Arr(args.iter().map(|a| J::Str(format!("{}", a))).collect())));
            o.push(("fn_crate", J::Str(tcx.crate_name(did.krate).to_string())));
            if let Some(r) = self.resolve(*did, args, env) {
                o.push(("resolved", r));
            }
            return J::Obj(o);
        }
        if let ty::Closure(did, _) = ty.kind() {
            o.push(("closure", J::Str(self.path(*did))));
            return J::Obj(o);
        }
        match c {
            Const::Ty(_, tc) => {
                match tc.kind() {
                    ty::ConstKind::Param(p) => {
                        o.push(("param", J::Str(p.name.to_string())));
                    }
                    ty::ConstKind::Value(v) => {
                        if let Some(si) = v.try_to_leaf() {
                            o.push(("value", self.scalar_int_to_j(si, ty)));
                        } else if let ty::Ref(_, inner, _) = ty.kind() {
                            if inner.is_str() {
                                if let Some(bytes) = v.try_to_raw_bytes(tcx) {
                                    o.push(("str", J::Str(String::from_utf8_lossy(bytes).to_string())));
                                }
                            }
                        }
                    }
                    ty::ConstKind::Unevaluated(u) => {
                        o.push(("uneval", J::Str(self.path(u.def))));
                        o.push((
                            "uneval_args",
                            J::Arr(u.args.iter().map(|a| J::Str(format!("{}", a))).collect()),
                        ));
                    }
                    _ => {}
                }
                o.push(("text", J::Str(format!("{}", c))));
            }
            Const::Unevaluated(u, _) => {
                o.push(("uneval", J::Str(self.path(u.def))));
                o.push((
                    "uneval_args",
                    J::Arr(u.args.iter().map(|a| J::Str(format!("{}", a))).collect()),
                ));
                if u.promoted.is_some() {
                    o.push(("promoted", J::Num(format!("{}", u.promoted.unwrap().as_u32()))));
                }
                // try to evaluate when closed
                if !c.has_non_region_param_() {
                    if let Some(si) = c.try_eval_scalar_int(tcx, env) {
                        if ty.is_integral() || ty.is_bool() || ty.is_char() {
                            o.push(("value", self.scalar_int_to_j(si, ty)));
                        }
                    }
                }
            }
            Const::Val(v, _) => match v {
                ConstValue::Scalar(s) => {
                    if let Ok(si) = s.try_to_scalar_int() {
                        if ty.is_integral() || ty.is_bool() || ty.is_char() {
                            o.push(("value", self.scalar_int_to_j(si, ty)));
                        }
                    } else {
                        // pointer to a byte array (e.g. format_args! templates): export the bytes
                        if let rustc_middle::mir::interpret::Scalar::Ptr(ptr, _) = s {
                            if let ty::Ref(_, inner, _) = ty.kind() {
                                if let ty::Array(elem, _) = inner.kind() {
                                    if *elem == tcx.types.u8 {
                                        let (prov, off) = ptr.prov_and_relative_offset();
                                        if let rustc_middle::mir::interpret::GlobalAlloc::Memory(alloc) =
                                            tcx.global_alloc(prov.alloc_id())
                                        {
                                            let a = alloc.inner();
                                            let start = off.bytes() as usize;
                                            let bytes = a.inspect_with_uninit_and_ptr_outside_interpreter(start..a.len());
                                            o.push((
                                                "bytes",
                                                J::Arr(bytes.iter().map(|b| J::Num(b.to_string())).collect()),
                                            ));
                                        }
                                    }
                                }
                            }
                        }
                        o.push(("text", J::Str(format!("{}", c))));
                    }
                }
                ConstValue::Slice { alloc_id, meta } => {
                    // &str / &[u8] literals
                    let alloc = tcx.global_alloc(*alloc_id).unwrap_memory();
                    let a = alloc.inner();
                    let len = *meta as usize;
                    let bytes = a.inspect_with_uninit_and_ptr_outside_interpreter(0..len.min(a.len()));
                    if let ty::Ref(_, inner, _) = ty.kind() {
                        if inner.is_str() {
                            o.push(("str", J::Str(String::from_utf8_lossy(bytes).to_string())));
                        } else {
                            o.push((
                                "bytes",
                                J::Arr(bytes.iter().map(|b| J::Num(b.to_string())).collect()),
                            ));
                        }
                    }
                }
                ConstValue::ZeroSized => {
                    o.push(("zst", J::Bool(true)));
                }
                ConstValue::Indirect { .. } => {
                    o.push(("text", J::Str(format!("{}", c))));
                }
            },
        }
        J::Obj(o)
    }

    fn resolve(&self, did: DefId, args: ty::GenericArgsRef<'tcx>, env: TypingEnv<'tcx>) -> Option<J> {
        let tcx = self.tcx;
        // only attempt when the item is a trait method
        if tcx.trait_of_assoc(did).is_none() {
            return None;
        }
        match Instance::try_resolve(tcx, env, did, args) {
            Ok(Some(inst)) => {
                let rd = inst.def_id();
                if rd == did {
                    // resolved to the provided (default) method of the trait
                    return Some(J::Obj(vec![
                        ("fn", J::Str(self.path(rd))),
                        ("default", J::Bool(true)),
                    ]));
                }
                Some(J::Obj(vec![
                    ("fn", J::Str(self.path(rd))),
                    ("crate", J::Str(tcx.crate_name(rd.krate).to_string())),
                    ("kind", J::Str(format!("{:?}", inst.def).split('(').next().unwrap_or("").to_string())),
                ]))
            }
            _ => None,
        }
    }

    fn place_j(&self, p: &Place<'tcx>, body: &Body<'tcx>) -> J {
        let tcx = self.tcx;
        let mut proj = Vec::new();
        let mut pty = mir::PlaceTy::from_ty(body.local_decls[p.local].ty);
        for elem in p.projection.iter() {
            let e = match elem {
                ProjectionElem::Deref => J::s("deref"),
                ProjectionElem::Field(f, _) => {
                    let mut name = None;
                    match pty.ty.kind() {
                        ty::Adt(adt, _) => {
                            let vi = pty.variant_index.unwrap_or(rustc_abi::FIRST_VARIANT);
                            if (vi.as_usize()) < adt.variants().len() {
                                let v = adt.variant(vi);
                                if f.as_usize() < v.fields.len() {
                                    name = Some(v.fields[f].name.to_string());
                                }
                            }
                        }
                        _ => {}
                    }
                    J::Obj(vec![
                        ("field", J::Num(f.as_usize().to_string())),
                        ("name", name.map(J::Str).unwrap_or(J::Null)),
                    ])
                }
                ProjectionElem::Index(l) => J::Obj(vec![("index", J::Num(l.as_usize().to_string()))]),
                ProjectionElem::ConstantIndex { offset, min_length, from_end } => J::Obj(vec![
                    ("cindex", J::Num(offset.to_string())),
                    ("min_length", J::Num(min_length.to_string())),
                    ("from_end", J::Bool(from_end)),
                ]),
                ProjectionElem::Subslice { from, to, from_end } => J::Obj(vec![
                    ("subslice", J::Num(from.to_string())),
                    ("to", J::Num(to.to_string())),
                    ("from_end", J::Bool(from_end)),
                ]),
                ProjectionElem::Downcast(sym, vi) => J::Obj(vec![
                    ("downcast", J::Num(vi.as_usize().to_string())),
                    ("variant", sym.map(|s| J::Str(s.to_string())).unwrap_or(J::Null)),
                ]),
                ProjectionElem::OpaqueCast(_) => J::s("opaque_cast"),
                ProjectionElem::UnwrapUnsafeBinder(_) => J::s("unwrap_binder"),
            };
            proj.push(e);
            pty = pty.projection_ty(tcx, elem);
        }
        J::Obj(vec![("l", J::Num(p.local.as_usize().to_string())), ("proj", J::Arr(proj))])
    }

    fn operand_j(&self, o: &Operand<'tcx>, body: &Body<'tcx>, env: TypingEnv<'tcx>) -> J {
        match o {
            Operand::Copy(p) => J::Obj(vec![("k", J::s("copy")), ("place", self.place_j(p, body))]),
            Operand::Move(p) => J::Obj(vec![("k", J::s("move")), ("place", self.place_j(p, body))]),
            Operand::Constant(c) => self.const_j(&c.const_, env),
            #[allow(unreachable_patterns)]
            _ => J::Obj(vec![("k", J::s("other")), ("text", J::Str(format!("{:?}", o)))]),
        }
    }

    fn rvalue_j(&self, rv: &Rvalue<'tcx>, body: &Body<'tcx>, env: TypingEnv<'tcx>) -> J {
        let tcx = self.tcx;
        match rv {
            Rvalue::Use(op, ..) => J::Obj(vec![("k", J::s("use")), ("op", self.operand_j(op, body, env))]),
            Rvalue::Repeat(op, n) => J::Obj(vec![
                ("k", J::s("repeat")),
                ("op", self.operand_j(op, body, env)),
                ("n", J::Str(format!("{}", n))),
            ]),
            Rvalue::Ref(_, bk, p) => J::Obj(vec![
                ("k", J::s("ref")),
                ("mut", J::Bool(matches!(bk, mir::BorrowKind::Mut { .. }))),
                ("place", self.place_j(p, body)),
            ]),
            Rvalue::RawPtr(_, p) => J::Obj(vec![("k", J::s("rawptr")), ("place", self.place_j(p, body))]),
            Rvalue::Cast(ck, op, t) => {
                let kind = match ck {
                    CastKind::IntToInt => "IntToInt".to_string(),
                    CastKind::PointerCoercion(pc, _) => format!("PointerCoercion({:?})", pc),
                    o => format!("{:?}", o),
                };
                J::Obj(vec![
                    ("k", J::s("cast")),
                    ("kind", J::Str(kind)),
                    ("op", self.operand_j(op, body, env)),
                    ("ty", J::Str(ty_str(*t))),
                    ("from_ty", J::Str(ty_str(op.ty(&body.local_decls, tcx)))),
                ])
            }
            Rvalue::BinaryOp(bop, ab) => {
                let (a, b) = &**ab;
                J::Obj(vec![
                    ("k", J::s("binop")),
                    ("op", J::Str(format!("{:?}", bop))),
                    ("a", self.operand_j(a, body, env)),
                    ("b", self.operand_j(b, body, env)),
                    ("a_ty", J::Str(ty_str(a.ty(&body.local_decls, tcx)))),
                ])
            }
            Rvalue::UnaryOp(uop, a) => J::Obj(vec![
                ("k", J::s("unop")),
                ("op", J::Str(format!("{:?}", uop))),
                ("a", self.operand_j(a, body, env)),
                ("a_ty", J::Str(ty_str(a.ty(&body.local_decls, tcx)))),
            ]),
            Rvalue::Discriminant(p) => J::Obj(vec![
                ("k", J::s("discr")),
                ("place", self.place_j(p, body)),
                ("of_ty", J::Str(ty_str(p.ty(&body.local_decls, tcx).ty))),
            ]),
            Rvalue::Aggregate(ak, ops) => {
                let mut o: Vec<(&'static str, J)> = vec![("k", J::s("aggregate"))];
                match &**ak {
                    AggregateKind::Array(t) => {
                        o.push(("agg", J::s("array")));
                        o.push(("elem_ty", J::Str(ty_str(*t))));
                    }
                    AggregateKind::Tuple => o.push(("agg", J::s("tuple"))),
                    AggregateKind::Adt(did, vi, _, _, _) => {
                        o.push(("agg", J::s("adt")));
                        o.push(("adt", J::Str(self.path(*did))));
                        let adt = tcx.adt_def(*did);
                        let v = adt.variant(*vi);
                        o.push(("variant", J::Str(v.name.to_string())));
                        o.push(("variant_idx", J::Num(vi.as_usize().to_string())));
                        o.push((
                            "fields",
                            J::Arr(v.fields.iter().map(|f| J::Str(f.name.to_string())).collect()),
                        ));
                    }
                    AggregateKind::Closure(did, _) => {
                        o.push(("agg", J::s("closure")));
                        o.push(("closure", J::Str(self.path(*did))));
                    }
                    other => {
                        o.push(("agg", J::Str(format!("{:?}", other))));
                    }
                }
                o.push(("ops", J::Arr(ops.iter().map(|x| self.operand_j(x, body, env)).collect())));
                J::Obj(o)
            }
            Rvalue::CopyForDeref(p) => J::Obj(vec![
                ("k", J::s("use")),
                ("op", J::Obj(vec![("k", J::s("copy")), ("place", self.place_j(p, body))])),
                ("copy_for_deref", J::Bool(true)),
            ]),
            Rvalue::ThreadLocalRef(d) => J::Obj(vec![("k", J::s("tlref")), ("def", J::Str(self.path(*d)))]),
            other => J::Obj(vec![("k", J::s("other")), ("text", J::Str(format!("{:?}", other)))]),
        }
    }

    fn assert_msg_j(&self, m: &AssertKind<Operand<'tcx>>, body: &Body<'tcx>, env: TypingEnv<'tcx>) -> J {
        match m {
            AssertKind::Overflow(op, a, b) => J::Obj(vec![
                ("k", J::s("Overflow")),
                ("op", J::Str(format!("{:?}", op))),
                ("a", self.operand_j(a, body, env)),
                ("b", self.operand_j(b, body, env)),
            ]),
            AssertKind::OverflowNeg(a) => {
                J::Obj(vec![("k", J::s("OverflowNeg")), ("a", self.operand_j(a, body, env))])
            }
            AssertKind::DivisionByZero(a) => {
                J::Obj(vec![("k", J::s("DivisionByZero")), ("a", self.operand_j(a, body, env))])
            }
            AssertKind::RemainderByZero(a) => {
                J::Obj(vec![("k", J::s("RemainderByZero")), ("a", self.operand_j(a, body, env))])
            }
            AssertKind::BoundsCheck { len, index } => J::Obj(vec![
                ("k", J::s("BoundsCheck")),
                ("len", self.operand_j(len, body, env)),
                ("index", self.operand_j(index, body, env)),
            ]),
            other => J::Obj(vec![("k", J::Str(format!("{:?}", other).split([' ', '(', '{']).next().unwrap_or("").to_string()))]),
        }
    }

    fn body_j(&self, did: DefId, body: &Body<'tcx>, kind: &str) -> J {
        let tcx = self.tcx;
        let env = TypingEnv::post_analysis(tcx, did);
        let mut o: Vec<(&'static str, J)> = Vec::new();
        o.push(("path", J::Str(self.path(did))));
        o.push(("kind", J::Str(kind.to_string())));
        o.push(("span", J::Str(span_str(tcx, body.span))));
        o.push(("expn", macro_name(body.span).map(J::Str).unwrap_or(J::Null)));
        // enclosing impl
        let mut parent = tcx.opt_parent(did);
        // closures: walk up to the first non-closure
        let mut owner = did;
        while let Some(p) = parent {
            if matches!(tcx.def_kind(owner), DefKind::Closure | DefKind::InlineConst | DefKind::AnonConst) {
                owner = p;
                parent = tcx.opt_parent(p);
            } else {
                break;
            }
        }
        if owner != did {
            o.push(("owner", J::Str(self.path(owner))));
        }
        if let Some(p) = tcx.opt_parent(owner) {
            if let DefKind::Impl { of_trait } = tcx.def_kind(p) {
                let self_ty = tcx.type_of(p).instantiate_identity().skip_norm_wip();
                o.push(("impl_self", J::Str(ty_str(self_ty))));
                if of_trait {
                    let tr = tcx.impl_trait_ref(p).instantiate_identity().skip_norm_wip();
                    o.push(("impl_trait", J::Str(format!("{}", tr.print_only_trait_path()))));
                    o.push(("impl_trait_def", J::Str(self.path(tr.def_id))));
                }
                o.push(("impl_span", J::Str(span_str(tcx, tcx.def_span(p)))));
            } else if let DefKind::Trait = tcx.def_kind(p) {
                o.push(("trait_default_of", J::Str(self.path(p))));
            }
        }
        if matches!(tcx.def_kind(did), DefKind::Fn | DefKind::AssocFn) {
            o.push(("vis", J::Str(format!("{:?}", tcx.visibility(did)))));
            let gens = tcx.generics_of(did);
            let mut names = Vec::new();
            let mut g = Some(gens);
            while let Some(gg) = g {
                for p in gg.own_params.iter().rev() {
                    names.push(J::Str(p.name.to_string()));
                }
                g = gg.parent.map(|p| tcx.generics_of(p));
            }
            names.reverse();
            o.push(("generics", J::Arr(names)));
        }
        o.push(("arg_count", J::Num(body.arg_count.to_string())));
        // locals
        let mut names: Vec<Option<String>> = vec![None; body.local_decls.len()];
        let mut dbg = Vec::new();
        for vdi in &body.var_debug_info {
            if let mir::VarDebugInfoContents::Place(p) = &vdi.value {
                if p.projection.is_empty() {
                    names[p.local.as_usize()] = Some(vdi.name.to_string());
                }
                dbg.push(J::Obj(vec![
                    ("name", J::Str(vdi.name.to_string())),
                    ("place", self.place_j(p, body)),
                ]));
            }
        }
        let mut locals = Vec::new();
        for (l, d) in body.local_decls.iter_enumerated() {
            locals.push(J::Obj(vec![
                ("id", J::Num(l.as_usize().to_string())),
                ("ty", J::Str(ty_str(d.ty))),
                ("name", names[l.as_usize()].clone().map(J::Str).unwrap_or(J::Null)),
                ("user", J::Bool(names[l.as_usize()].is_some())),
            ]));
        }
        o.push(("locals", J::Arr(locals)));
        o.push(("debug", J::Arr(dbg)));
        // blocks
        let mut blocks = Vec::new();
        for (bb, data) in body.basic_blocks.iter_enumerated() {
            let mut stmts = Vec::new();
            for st in &data.statements {
                match &st.kind {
                    StatementKind::Assign(b) => {
                        let (p, rv) = &**b;
                        stmts.push(J::Obj(vec![
                            ("k", J::s("assign")),
                            ("place", self.place_j(p, body)),
                            ("rv", self.rvalue_j(rv, body, env)),
                            ("line", J::Num(self.line(st.source_info.span).to_string())),
                            ("expn", macro_name(st.source_info.span).map(J::Str).unwrap_or(J::Null)),
                        ]));
                    }
                    StatementKind::SetDiscriminant { place, variant_index } => {
                        stmts.push(J::Obj(vec![
                            ("k", J::s("set_discr")),
                            ("place", self.place_j(place, body)),
                            ("variant_idx", J::Num(variant_index.as_usize().to_string())),
                        ]));
                    }
                    StatementKind::Intrinsic(i) => {
                        stmts.push(J::Obj(vec![("k", J::s("intrinsic")), ("text", J::Str(format!("{:?}", i)))]));
                    }
                    _ => {}
                }
            }
            let term = data.terminator();
            let tl = self.line(term.source_info.span);
            let texpn = macro_name(term.source_info.span).map(J::Str).unwrap_or(J::Null);
            let t = match &term.kind {
                TerminatorKind::Goto { target } => {
                    J::Obj(vec![("k", J::s("goto")), ("target", J::Num(target.as_usize().to_string()))])
                }
                TerminatorKind::SwitchInt { discr, targets } => {
                    let mut ts = Vec::new();
                    for (v, t) in targets.iter() {
                        ts.push(J::Arr(vec![J::Num(v.to_string()), J::Num(t.as_usize().to_string())]));
                    }
                    J::Obj(vec![
                        ("k", J::s("switch")),
                        ("discr", self.operand_j(discr, body, env)),
                        ("discr_ty", J::Str(ty_str(discr.ty(&body.local_decls, tcx)))),
                        ("targets", J::Arr(ts)),
                        ("otherwise", J::Num(targets.otherwise().as_usize().to_string())),
                    ])
                }
                TerminatorKind::Return => J::Obj(vec![("k", J::s("return"))]),
                TerminatorKind::Unreachable => J::Obj(vec![("k", J::s("unreachable"))]),
                TerminatorKind::UnwindResume => J::Obj(vec![("k", J::s("resume"))]),
                TerminatorKind::UnwindTerminate(_) => J::Obj(vec![("k", J::s("terminate"))]),
                TerminatorKind::Drop { place, target, .. } => J::Obj(vec![
                    ("k", J::s("drop")),
                    ("place", self.place_j(place, body)),
                    ("target", J::Num(target.as_usize().to_string())),
                ]),
                TerminatorKind::Call { func, args, destination, target, fn_span, .. } => {
                    let mut c: Vec<(&'static str, J)> = vec![("k", J::s("call"))];
                    c.push(("func", self.operand_j(func, body, env)));
                    c.push(("args", J::Arr(args.iter().map(|a| self.operand_j(&a.node, body, env)).collect())));
                    c.push((
                        "arg_tys",
                        J::Arr(args.iter().map(|a| J::Str(ty_str(a.node.ty(&body.local_decls, tcx)))).collect()),
                    ));
                    c.push(("dest", self.place_j(destination, body)));
                    c.push(("target", target.map(|t| J::Num(t.as_usize().to_string())).unwrap_or(J::Null)));
                    c.push(("fn_line", J::Num(self.line(*fn_span).to_string())));
                    J::Obj(c)
                }
                TerminatorKind::Assert { cond, expected, msg, target, .. } => J::Obj(vec![
                    ("k", J::s("assert")),
                    ("cond", self.operand_j(cond, body, env)),
                    ("expected", J::Bool(*expected)),
                    ("msg", self.assert_msg_j(msg, body, env)),
                    ("target", J::Num(target.as_usize().to_string())),
                ]),
                TerminatorKind::FalseEdge { real_target, .. } => {
                    J::Obj(vec![("k", J::s("goto")), ("target", J::Num(real_target.as_usize().to_string()))])
                }
                TerminatorKind::FalseUnwind { real_target, .. } => {
                    J::Obj(vec![("k", J::s("goto")), ("target", J::Num(real_target.as_usize().to_string()))])
                }
                other => J::Obj(vec![("k", J::s("other")), ("text", J::Str(format!("{:?}", other)))]),
            };
            let t = match t {
                J::Obj(mut v) => {
                    v.push(("line", J::Num(tl.to_string())));
                    v.push(("expn", texpn));
                    J::Obj(v)
                }
                x => x,
            };
            blocks.push(J::Obj(vec![
                ("id", J::Num(bb.as_usize().to_string())),
                ("cleanup", J::Bool(data.is_cleanup)),
                ("stmts", J::Arr(stmts)),
                ("term", t),
            ]));
        }
        o.push(("blocks", J::Arr(blocks)));
        J::Obj(o)
    }

    fn line(&self, sp: Span) -> usize {
        let sm = self.tcx.sess.source_map();
        sm.lookup_char_pos(sp.source_callsite().lo()).line
    }

    // read `len` integers of byte width `w` from a data allocation
    fn read_ints(&self, alloc: &mir::interpret::Allocation, off: usize, len: usize, w: usize) -> Vec<J> {
        let bytes = alloc.inspect_with_uninit_and_ptr_outside_interpreter(off..off + len * w);
        let mut out = Vec::with_capacity(len);
        for i in 0..len {
            let mut v: u128 = 0;
            for b in 0..w {
                v |= (bytes[i * w + b] as u128) << (8 * b);
            }
            out.push(J::Num(v.to_string()));
        }
        out
    }

    fn const_item_j(&self, did: DefId) -> Option<J> {
        let tcx = self.tcx;
        let ty = tcx.type_of(did).instantiate_identity().skip_norm_wip();
        let mut o: Vec<(&'static str, J)> = vec![
            ("path", J::Str(self.path(did))),
            ("ty", J::Str(ty_str(ty))),
            ("span", J::Str(span_str(tcx, tcx.def_span(did)))),
        ];
        // only closed items
        if tcx.generics_of(did).count() != 0 {
            o.push(("generic", J::Bool(true)));
            return Some(J::Obj(o));
        }
        let val = match tcx.const_eval_poly(did) {
            Ok(v) => v,
            Err(_) => return Some(J::Obj(o)),
        };
        match val {
            ConstValue::Scalar(s) => {
                if let Ok(si) = s.try_to_scalar_int() {
                    if ty.is_integral() || ty.is_bool() {
                        o.push(("value", self.scalar_int_to_j(si, ty)));
                    }
                }
            }
            ConstValue::Slice { alloc_id, meta } => {
                if let ty::Ref(_, inner, _) = ty.kind() {
                    let alloc = tcx.global_alloc(alloc_id).unwrap_memory();
                    let a = alloc.inner();
                    if inner.is_str() {
                        let bytes = a.inspect_with_uninit_and_ptr_outside_interpreter(0..meta as usize);
                        o.push(("value", J::Str(String::from_utf8_lossy(bytes).to_string())));
                    }
                }
            }
            ConstValue::Indirect { alloc_id, offset } => {
                // &[T] constants: the allocation holds a fat pointer (ptr, len)
                if let ty::Ref(_, inner, _) = ty.kind() {
                    if let ty::Slice(elem) = inner.kind() {
                        let w = match elem.kind() {
                            ty::Uint(u) => u.bit_width().map(|b| b as usize / 8).unwrap_or(8),
                            ty::Int(u) => u.bit_width().map(|b| b as usize / 8).unwrap_or(8),
                            _ => 0,
                        };
                        if w != 0 {
                            let alloc = tcx.global_alloc(alloc_id).unwrap_memory();
                            let a = alloc.inner();
                            let off = offset.bytes() as usize;
                            let lenb = a.inspect_with_uninit_and_ptr_outside_interpreter(off + 8..off + 16);
                            let mut len: usize = 0;
                            for (i, b) in lenb.iter().enumerate() {
                                len |= (*b as usize) << (8 * i);
                            }
                            let prov = a.provenance().ptrs();
                            if let Some((_, p)) = prov.iter().next() {
                                let data = tcx.global_alloc(p.alloc_id()).unwrap_memory();
                                // pointer offset is stored in the bytes of the fat pointer
                                let pb = a.inspect_with_uninit_and_ptr_outside_interpreter(off..off + 8);
                                let mut poff: usize = 0;
                                for (i, b) in pb.iter().enumerate() {
                                    poff |= (*b as usize) << (8 * i);
                                }
                                o.push(("value", J::Arr(self.read_ints(data.inner(), poff, len, w))));
                                o.push(("elem_bytes", J::Num(w.to_string())));
                            }
                        }
                    }
                }
            }
            ConstValue::ZeroSized => {}
        }
        Some(J::Obj(o))
    }
}

trait HasParam {
    fn has_non_region_param_(&self) -> bool;
}
impl<'tcx> HasParam for Const<'tcx> {
    fn has_non_region_param_(&self) -> bool {
        use rustc_middle::ty::TypeVisitableExt;
        match self {
            Const::Unevaluated(u, t) => u.args.has_non_region_param() || t.has_non_region_param(),
            Const::Ty(t, c) => t.has_non_region_param() || c.has_non_region_param(),
            Const::Val(_, t) => t.has_non_region_param(),
        }
    }
}

fn export<'tcx>(tcx: TyCtxt<'tcx>) -> J {
    let ex = Ex { tcx };
    let mut bodies = Vec::new();
    let mut consts = Vec::new();
    let mut adts = Vec::new();
    let mut impls = Vec::new();
    let mut n_blocks = 0usize;
    let mut n_calls = 0usize;

    let keys: Vec<LocalDefId> = tcx.mir_keys(()).iter().copied().collect();
    let mut keys = keys;
    keys.sort_by_key(|k| tcx.def_path_str(k.to_def_id()));
    for ldid in keys {
        let did = ldid.to_def_id();
        let kind = tcx.def_kind(did);
        let (body, kname): (&Body<'tcx>, &str) = match kind {
            DefKind::Fn => (tcx.optimized_mir(did), "Fn"),
            DefKind::AssocFn => (tcx.optimized_mir(did), "AssocFn"),
            DefKind::Closure => (tcx.optimized_mir(did), "Closure"),
            DefKind::Const { .. } => (tcx.mir_for_ctfe(did), "Const"),
            DefKind::AssocConst { .. } => (tcx.mir_for_ctfe(did), "AssocConst"),
            DefKind::AnonConst => (tcx.mir_for_ctfe(did), "AnonConst"),
            DefKind::InlineConst => (tcx.mir_for_ctfe(did), "InlineConst"),
            DefKind::Static { .. } => (tcx.mir_for_ctfe(did), "Static"),
            DefKind::Ctor(..) => continue,
            _ => continue,
        };
        n_blocks += body.basic_blocks.len();
        for b in body.basic_blocks.iter() {
            if let TerminatorKind::Call { .. } = b.terminator().kind {
                n_calls += 1;
            }
        }
        bodies.push(ex.body_j(did, body, kname));
        // promoted bodies
        if matches!(kind, DefKind::Fn | DefKind::AssocFn | DefKind::Closure) {
            let proms = tcx.promoted_mir(did);
            for (pi, pb) in proms.iter_enumerated() {
                let j = ex.body_j(did, pb, "Promoted");
                if let J::Obj(mut v) = j {
                    v.push(("promoted_idx", J::Num(pi.as_usize().to_string())));
                    bodies.push(J::Obj(v));
                }
            }
        }
    }

    // module items: consts, adts, impls
    let items = tcx.hir_crate_items(());
    for id in items.definitions() {
        let did = id.to_def_id();
        match tcx.def_kind(did) {
            DefKind::Const { .. } | DefKind::Static { .. } => {
                if let Some(j) = ex.const_item_j(did) {
                    consts.push(j);
                }
            }
            DefKind::AssocConst { .. } => {
                let ty = tcx.type_of(did).instantiate_identity().skip_norm_wip();
                consts.push(J::Obj(vec![
                    ("path", J::Str(ex.path(did))),
                    ("ty", J::Str(ty_str(ty))),
                    ("assoc", J::Bool(true)),
                    ("span", J::Str(span_str(tcx, tcx.def_span(did)))),
                ]));
            }
            DefKind::Struct | DefKind::Enum | DefKind::Union => {
                let adt = tcx.adt_def(did);
                let mut vars = Vec::new();
                for (vi, v) in adt.variants().iter_enumerated() {
                    let mut fs = Vec::new();
                    for f in v.fields.iter() {
                        let fty = tcx.type_of(f.did).instantiate_identity().skip_norm_wip();
                        fs.push(J::Obj(vec![
                            ("name", J::Str(f.name.to_string())),
                            ("ty", J::Str(ty_str(fty))),
                            ("vis", J::Str(format!("{:?}", f.vis))),
                        ]));
                    }
                    vars.push(J::Obj(vec![
                        ("name", J::Str(v.name.to_string())),
                        ("idx", J::Num(vi.as_usize().to_string())),
                        ("fields", J::Arr(fs)),
                    ]));
                }
                adts.push(J::Obj(vec![
                    ("path", J::Str(ex.path(did))),
                    ("kind", J::Str(format!("{:?}", tcx.def_kind(did)))),
                    ("variants", J::Arr(vars)),
                    ("span", J::Str(span_str(tcx, tcx.def_span(did)))),
                ]));
            }
            DefKind::Impl { of_trait } => {
                let self_ty = tcx.type_of(did).instantiate_identity().skip_norm_wip();
                let mut o: Vec<(&'static str, J)> = vec![
                    ("self_ty", J::Str(ty_str(self_ty))),
                    ("span", J::Str(span_str(tcx, tcx.def_span(did)))),
                    ("expn", macro_name(tcx.def_span(did)).map(J::Str).unwrap_or(J::Null)),
                ];
                if of_trait {
                    let tr = tcx.impl_trait_ref(did).instantiate_identity().skip_norm_wip();
                    o.push(("trait", J::Str(format!("{}", tr.print_only_trait_path()))));
                    o.push(("trait_def", J::Str(ex.path(tr.def_id))));
                }
                let mut its = Vec::new();
                for it in tcx.associated_items(did).in_definition_order() {
                    its.push(J::Obj(vec![
                        ("name", J::Str(it.name().to_string())),
                        ("kind", J::Str(format!("{:?}", it.tag()))),
                        ("path", J::Str(ex.path(it.def_id))),
                    ]));
                }
                o.push(("items", J::Arr(its)));
                let preds = tcx.predicates_of(did).instantiate_identity(tcx);
                o.push((
                    "where",
                    J::Arr(preds.predicates.iter().map(|p| J::Str(format!("{}", p.skip_norm_wip()))).collect()),
                ));
                impls.push(J::Obj(o));
            }
            _ => {}
        }
    }

    // source files loaded for this crate
    let mut files = Vec::new();
    for f in tcx.sess.source_map().files().iter() {
        if let rustc_span::FileName::Real(r) = &f.name {
            if let Some(p) = r.local_path() {
                let s = p.display().to_string();
                if !s.contains("/.cargo/") && !s.contains("/rustlib/") {
                    files.push(J::Str(s));
                }
            }
        }
    }

    let mut feats_s: Vec<String> = tcx
        .sess
        .config
        .iter()
        .filter(|(k, v)| k.as_str() == "feature" && v.is_some())
        .map(|(_, v)| v.unwrap().to_string())
        .collect();
    feats_s.sort();
    let feats: Vec<J> = feats_s.into_iter().map(J::Str).collect();

    J::Obj(vec![
        (
            "meta",
            J::Obj(vec![
                ("rustc", J::Str(rustc_interface::util::rustc_version_str().unwrap_or("?").to_string())),
                ("crate", J::Str(tcx.crate_name(rustc_hir::def_id::LOCAL_CRATE).to_string())),
                ("features", J::Arr(feats)),
                ("n_bodies", J::Num(bodies.len().to_string())),
                ("n_blocks", J::Num(n_blocks.to_string())),
                ("n_calls", J::Num(n_calls.to_string())),
                ("files", J::Arr(files)),
                ("debug_assertions", J::Bool(tcx.sess.opts.debug_assertions)),
                ("overflow_checks", J::Bool(tcx.sess.overflow_checks())),
            ]),
        ),
        ("adts", J::Arr(adts)),
        ("impls", J::Arr(impls)),
        ("consts", J::Arr(consts)),
        ("bodies", J::Arr(bodies)),
    ])
}

#[allow(dead_code)]
fn _unused(_: BinOp) {}

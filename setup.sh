#!/bin/sh
# Build the exporter and warm the per-feature-set dependency caches. Offline.
set -e
export CARGO_NET_OFFLINE=true
cd /verif/mirx && cargo build --release --offline
cd /verif && python3 - <<'PY'
import sys
sys.path.insert(0, "/verif/sa")
import facts
for fs in ("default", "checks", "no_copy_impls", "both"):
    facts.ensure_facts(fs)
print("setup ok")
PY
